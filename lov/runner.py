"""Runner: seeds, sharding, collect-and-bucket, shrink budget, replay, evidence, exit codes (DESIGN.md section 1)."""
import argparse
import collections
import hashlib
import importlib
import json
import os
import shutil
import subprocess
import sys
import time
import traceback

ROOT = os.path.dirname(os.path.dirname(os.path.abspath(__file__)))


from lov.core import HarnessError, Violation, canon, sha  # noqa: E402


def abbreviate(obj, limit=600):
    s = canon(obj)
    if len(s) <= limit:
        return obj
    return {"abbrev": s[:limit] + "...", "sha1": sha(obj)}


def derive_seed(base, *parts):
    h = hashlib.sha1(("%d|" % base + "|".join(str(p) for p in parts)).encode()).hexdigest()
    return int(h[:12], 16)


class Stats:
    def __init__(self):
        self.evaluations = 0
        self.nontrivial = set()
        self.labels = collections.Counter()
        self.samples = []
        self.sample_keys = set()
        self.excluded_run_local = collections.Counter()
        self.invalid = 0

    def record(self, case, info):
        self.evaluations += 1
        info = info or {}
        for lab in info.get("labels", ()):
            self.labels[lab] += 1
        if info.get("nontrivial"):
            key = sha(info.get("key", case))
            if key not in self.nontrivial:
                self.nontrivial.add(key)
                if len(self.samples) < 6 and (len(self.nontrivial) % 7 == 1 or len(self.samples) < 2):
                    self.samples.append(abbreviate(info.get("sample", case)))

    def dump(self):
        return {
            "evaluations": self.evaluations,
            "nontrivial": sorted(self.nontrivial),
            "labels": dict(self.labels),
            "samples": self.samples,
            "excluded_run_local": dict(self.excluded_run_local),
            "invalid": self.invalid,
        }


def load_module(prop):
    return importlib.import_module("lov.props.%s" % prop.lower())


def execute(mod, case):
    """Run one case outside Hypothesis with a fresh global state. Returns info or raises Violation."""
    from lov import state

    state.reset(seed_obj=case)
    try:
        return mod.check(case)
    finally:
        state.reset()


def write_replay(prop, sig, case, detail, seed):
    d = os.path.join(os.environ.get("LOV_REPLAY_DIR") or os.path.join(ROOT, "replays"), prop)
    os.makedirs(d, exist_ok=True)
    name = hashlib.sha1((sig + canon(case)).encode()).hexdigest()[:16] + ".json"
    path = os.path.join(d, name)
    with open(path, "w") as fh:
        json.dump({"property": prop, "signature": sig, "detail": detail[:4000], "seed": seed, "case": case}, fh, indent=1, default=str)
    return path


def ddmin_list(items, still_fails, budget):
    """Greedy one-at-a-time removal (enough for short histories)."""
    items = list(items)
    changed = True
    while changed and budget[0] > 0:
        changed = False
        for i in range(len(items) - 1, -1, -1):
            if budget[0] <= 0:
                break
            cand = items[:i] + items[i + 1 :]
            budget[0] -= 1
            if still_fails(cand):
                items = cand
                changed = True
    return items


def search(mod, tier, seed, shard, budget, findings, stats, out_violations, max_rounds, shrink_budget, deadline):
    """Collect-and-bucket search.  Returns nothing; appends (sig, replay_path, detail) to out_violations."""
    import hypothesis
    from hypothesis import HealthCheck, Phase, given, settings

    from lov import state

    excluded = set()
    remaining = budget
    rnd = 0
    while remaining > 0 and rnd < max_rounds:
        rnd += 1
        target = {"sig": None, "case": None, "detail": "", "post": 0, "failing": {}}
        used = [0]
        use_shrink = getattr(mod, "HYPOTHESIS_SHRINK", True)

        def body(case):
            if time.time() > deadline[0]:
                deadline[1] = True
                return
            if target["sig"] is not None:
                target["post"] += 1
                k = sha(case)
                if k in target["failing"]:
                    raise target["failing"][k]
                if target["post"] > shrink_budget:
                    return
            else:
                used[0] += 1
            state.reset(seed_obj=case)
            try:
                info = mod.check(case)
            except Violation as v:
                vcase = v.case if v.case is not None else case
                if findings.match(v.sig, vcase) is not None:
                    stats.labels["excluded_known_finding"] += 1
                    return
                if v.sig in excluded:
                    stats.excluded_run_local[v.sig] += 1
                    return
                if target["sig"] is None:
                    target["sig"] = v.sig
                if v.sig != target["sig"]:
                    return
                target["case"] = vcase
                target["detail"] = v.detail
                target["failing"][sha(case)] = v
                raise
            except hypothesis.errors.UnsatisfiedAssumption:
                stats.invalid += 1
                raise
            finally:
                state.reset()
            if target["sig"] is None:
                stats.record(case, info)

        phases = [Phase.generate, Phase.shrink] if use_shrink else [Phase.generate]
        st_settings = settings(
            max_examples=max(1, remaining),
            database=None,
            deadline=None,
            derandomize=False,
            report_multiple_bugs=False,
            phases=phases,
            suppress_health_check=list(HealthCheck),
            print_blob=False,
        )
        rseed = derive_seed(seed, mod.ID, shard, rnd)
        try:
            if hasattr(mod, "machine"):
                from hypothesis.stateful import run_state_machine_as_test

                machine_cls = mod.machine(tier, body)
                ms = settings(st_settings, stateful_step_count=getattr(mod, "STEPS", {}).get(tier, 20))
                run_state_machine_as_test(hypothesis.seed(rseed)(machine_cls), settings=ms)
            else:
                test = hypothesis.seed(rseed)(st_settings(given(mod.strategy(tier))(body)))
                test()
        except Violation:
            pass
        except (hypothesis.errors.Flaky, hypothesis.errors.FlakyFailure) if hasattr(hypothesis.errors, "FlakyFailure") else hypothesis.errors.Flaky:
            if target["case"] is None:
                raise HarnessError("hypothesis reported flakiness without a recorded failing case")
        except hypothesis.errors.Unsatisfiable:
            stats.labels["unsatisfiable_round"] += 1
        remaining -= max(used[0], 1)
        if target["case"] is None:
            break
        case, sig, detail = target["case"], target["sig"], target["detail"]
        # optional structural minimisation of histories / programs (pure function of the JSON case)
        if hasattr(mod, "minimise"):

            def still(c):
                try:
                    execute(mod, c)
                except Violation as v2:
                    return v2.sig == sig
                except Exception:
                    return False
                return False

            try:
                case = mod.minimise(case, still, [shrink_budget])
            except Exception:
                pass
        # re-execute once outside hypothesis: a failure that does not reproduce is a harness error
        try:
            execute(mod, case)
            reproduced = False
        except Violation as v3:
            reproduced = v3.sig == sig
            detail = v3.detail
        if not reproduced:
            raise HarnessError("violation %s did not reproduce from its own replay case: %s" % (sig, canon(case)[:500]))
        path = write_replay(mod.ID, sig, case, detail, seed)
        out_violations.append({"sig": sig, "replay": path, "detail": detail[:1500]})
        excluded.add(sig)
        if deadline[1]:
            break


def replay_corpus(mod, findings, stats, out_violations, known_lines):
    """Replay tier: every committed regression input, and the witness of every open finding."""
    cdir = os.path.join(ROOT, "corpus", mod.ID)
    witness_of = {}
    for e in findings.entries:
        if e.get("witness"):
            witness_of[os.path.normpath(os.path.join(ROOT, e["witness"]))] = e
    files = []
    if os.path.isdir(cdir):
        files = sorted(os.path.join(cdir, f) for f in os.listdir(cdir) if f.endswith(".json"))
    for path in files:
        with open(path) as fh:
            blob = json.load(fh)
        case = blob.get("case", blob)
        entry = witness_of.get(os.path.normpath(path))
        try:
            info = execute(mod, case)
            stats.labels["corpus_pass"] += 1
            if entry is not None and entry.get("status", "open") == "open":
                findings.reproduced[entry["id"]] = False
        except Violation as v:
            if entry is not None and entry.get("status", "open") == "open":
                findings.reproduced[entry["id"]] = True
                known_lines.append("KNOWN-FINDING: property=%s %s [%s] %s" % (mod.ID, entry["id"], v.sig, entry.get("title", "")))
                stats.labels["corpus_known_finding"] += 1
            elif findings.match(v.sig, case) is not None:
                stats.labels["corpus_known_finding"] += 1
            else:
                rp = write_replay(mod.ID, v.sig, case, v.detail, 0)
                out_violations.append({"sig": v.sig, "replay": rp, "detail": v.detail[:1500], "corpus": os.path.relpath(path, ROOT)})


def evidence_path(prop):
    # mutation runs (tools/mutcheck.sh) must not overwrite the committed evidence
    d = os.environ.get("LOV_EVIDENCE_DIR") or os.path.join(ROOT, "evidence")
    return os.path.join(d, "%s.json" % prop)


def write_evidence(mod, tier, seed, merged, wall, violations, findings_info, extra):
    cov = {
        "evaluations": merged["evaluations"],
        "distinct_nontrivial": len(merged["nontrivial"]),
        "rule": mod.RULE,
        "samples": merged["samples"][:8],
        "distribution": dict(sorted(merged["labels"].items(), key=lambda kv: (-kv[1], kv[0]))[:400]),
        "excluded_by_known_finding": findings_info.get("excluded", {}),
        "known_findings_reproduced": findings_info.get("reproduced", {}),
        "excluded_run_local": merged.get("excluded_run_local", {}),
        "discarded_by_assume": merged.get("invalid", 0),
        "budget_exhausted": extra.get("budget_exhausted", False),
        "shards": extra.get("shards", 1),
        "gaps": extra.get("gaps", []),
        "exhaustive": False,
    }
    cov.update(extra.get("coverage_extra", {}))
    ev = {
        "property_id": mod.ID,
        "tier": tier,
        "seed": seed,
        "level": "exploration",
        "coverage": cov,
        "assumptions": list(getattr(mod, "ASSUMPTIONS", [])) + [
            "torch (CPU, float64) is the numerical reference for the dense model",
            "generated sizes/nesting are bounded as stated in 'rule'; nothing is claimed beyond the explored cases",
        ],
        "wall_s": round(wall, 2),
        "violations": len(violations),
        "violation_signatures": [v["sig"] for v in violations],
    }
    os.makedirs(os.path.dirname(evidence_path(mod.ID)), exist_ok=True)
    with open(evidence_path(mod.ID), "w") as fh:
        json.dump(ev, fh, indent=1, default=str)


def run_shard(args, mod, seed):
    """One worker process: returns dict with stats + violations (JSON-able)."""
    import torch

    from lov.findings import Findings

    torch.set_num_threads(1)
    findings = Findings(mod.ID, getattr(mod, "TRIGGERS", {}))
    stats = Stats()
    violations = []
    known_lines = []
    tier = args.tier
    budget = args.examples or mod.BUDGET[tier]
    if args.shard == 0:
        replay_corpus(mod, findings, stats, violations, known_lines)
    wall_guard = getattr(mod, "WALL_GUARD", {"quick": 900, "thorough": 3000})[tier]
    deadline = [time.time() + wall_guard, False]
    search(
        mod,
        tier,
        seed,
        args.shard,
        budget,
        findings,
        stats,
        violations,
        max_rounds=3 if tier == "quick" else 9,
        shrink_budget=getattr(mod, "SHRINK_BUDGET", {"quick": 300, "thorough": 1500})[tier],
        deadline=deadline,
    )
    res = stats.dump()
    res["violations"] = violations
    res["known_lines"] = known_lines
    res["findings_excluded"] = findings.excluded
    res["findings_reproduced"] = findings.reproduced
    res["budget_exhausted"] = deadline[1]
    if hasattr(mod, "coverage_extra"):
        res["coverage_extra"] = mod.coverage_extra()
    return res


def run_fuzz(prop, mod, seed, parts):
    """Coverage-guided stage (Atheris/libFuzzer through fuzz_one_input), thorough tier only.  Each worker runs two
    campaigns on a private temporary corpus directory: from an empty corpus, then continuing from the corpus the
    first campaign accumulated.  A missing atheris is recorded as skipped, never a failure."""
    try:
        import atheris  # noqa: F401
    except Exception as e:
        return {"skipped": "atheris not importable: %r" % (e,)}
    cfg = mod.FUZZ
    workers, runs = cfg.get("workers", 8), cfg.get("runs", 4000)
    work = os.path.join(ROOT, ".work", "fuzz-%s-%d" % (prop, os.getpid()))
    os.makedirs(work, exist_ok=True)
    info = {"workers": workers, "runs_per_campaign": runs, "campaigns": 2 * workers, "executions": 0, "evaluations": 0, "violations": 0, "known": 0}
    nontrivial = set()
    extra_part = {"evaluations": 0, "nontrivial": [], "labels": {}, "samples": [], "violations": [], "known_lines": [], "findings_excluded": {}, "findings_reproduced": {}, "budget_exhausted": False}
    for phase in (0, 1):
        procs = []
        for w in range(workers):
            out = os.path.join(work, "w%d_p%d.json" % (w, phase))
            cmd = [sys.executable, "-m", "lov.fuzz.driver", prop, "--runs", str(runs), "--seed", str(derive_seed(seed, prop, "fuzz", w, phase) % (2**31 - 1) or 1), "--out", out, "--corpus", os.path.join(work, "corpus%d" % w)]
            procs.append((subprocess.Popen(cmd, cwd=ROOT, stdout=subprocess.DEVNULL, stderr=subprocess.DEVNULL), out))
        for p, out in procs:
            p.wait()
            try:
                with open(out) as fh:
                    st = json.load(fh)
            except Exception:
                continue
            info["executions"] += st.get("executions", 0)
            info["evaluations"] += st.get("evaluations", 0)
            info["known"] += st.get("known", 0)
            nontrivial.update(st.get("nontrivial", []))
            v = st.get("violation")
            if v and "sig" in v:
                info["violations"] += 1
                extra_part["violations"].append(v)
            elif v and "harness_error" in v:
                info.setdefault("harness_errors", []).append(v["harness_error"][:300])
    shutil.rmtree(work, ignore_errors=True)
    info["distinct_nontrivial"] = len(nontrivial)
    extra_part["evaluations"] = info["evaluations"]
    extra_part["nontrivial"] = sorted(nontrivial)
    extra_part["labels"] = {"fuzz_evaluations": info["evaluations"]}
    parts.append(extra_part)
    return info


def merge(parts):
    out = {"evaluations": 0, "nontrivial": set(), "labels": collections.Counter(), "samples": [], "excluded_run_local": collections.Counter(), "invalid": 0}
    for p in parts:
        out["evaluations"] += p["evaluations"]
        out["nontrivial"].update(p["nontrivial"])
        out["labels"].update(p["labels"])
        out["excluded_run_local"].update(p.get("excluded_run_local", {}))
        out["invalid"] += p.get("invalid", 0)
        for s in p["samples"]:
            if len(out["samples"]) < 8:
                out["samples"].append(s)
    out["labels"] = dict(out["labels"])
    out["excluded_run_local"] = dict(out["excluded_run_local"])
    return out


def main(argv=None):
    ap = argparse.ArgumentParser()
    ap.add_argument("prop")
    ap.add_argument("--tier", default=os.environ.get("VERIF_TIER", "quick"), choices=["quick", "thorough"])
    ap.add_argument("--replay")
    ap.add_argument("--examples", type=int, default=0)
    ap.add_argument("--shards", type=int, default=0)
    ap.add_argument("--shard", type=int, default=0)
    ap.add_argument("--worker-out")
    ap.add_argument("--seed", type=int, default=None)
    args = ap.parse_args(argv)
    prop = args.prop.upper()
    seed = args.seed if args.seed is not None else int(os.environ.get("VERIF_SEED", "1") or 1)
    t0 = time.time()
    try:
        import linear_operator

        lo_file = os.path.realpath(linear_operator.__file__)
        if not lo_file.startswith(os.path.realpath(os.environ.get("LOV_REPO", "/repo")) + os.sep):
            print("HARNESS-ERROR: linear_operator imported from %s, not from /repo" % lo_file)
            return 2
        mod = load_module(prop)
    except Exception:
        traceback.print_exc()
        print("HARNESS-ERROR: cannot import the library or the property module")
        return 2

    if args.replay:
        with open(args.replay) as fh:
            blob = json.load(fh)
        case = blob.get("case", blob)
        try:
            execute(mod, case)
        except Violation as v:
            print("replay fails: %s :: %s" % (v.sig, v.detail[:2000]))
            print("VIOLATION property=%s replay=%s" % (prop, args.replay))
            return 1
        except Exception:
            traceback.print_exc()
            print("HARNESS-ERROR: replay raised inside the harness")
            return 2
        print("replay passes: %s" % args.replay)
        return 0

    if args.worker_out:
        try:
            res = run_shard(args, mod, seed)
            code = 0
        except Exception:
            res = {"harness_error": traceback.format_exc()}
            code = 2
        with open(args.worker_out, "w") as fh:
            json.dump(res, fh, default=str)
        return code

    nshards = args.shards or (getattr(mod, "SHARDS", 16) if args.tier == "thorough" else 1)
    parts = []
    harness_error = None
    if nshards == 1:
        try:
            parts.append(run_shard(args, mod, seed))
        except Exception:
            harness_error = traceback.format_exc()
    else:
        work = os.path.join(ROOT, ".work", "%s-%d" % (prop, os.getpid()))
        os.makedirs(work, exist_ok=True)
        procs = []
        for i in range(nshards):
            out = os.path.join(work, "shard%d.json" % i)
            cmd = [sys.executable, "-m", "lov.runner", prop, "--tier", args.tier, "--shard", str(i), "--worker-out", out, "--seed", str(seed)]
            if args.examples:
                cmd += ["--examples", str(args.examples)]
            procs.append((subprocess.Popen(cmd, cwd=ROOT, stdout=subprocess.PIPE, stderr=subprocess.STDOUT), out))
        for p, out in procs:
            stdout, _ = p.communicate()
            try:
                with open(out) as fh:
                    res = json.load(fh)
            except Exception:
                harness_error = "shard produced no output: %s" % stdout.decode(errors="replace")[-2000:]
                continue
            if "harness_error" in res:
                harness_error = res["harness_error"]
            else:
                parts.append(res)
        shutil.rmtree(work, ignore_errors=True)

    if harness_error is not None:
        print(harness_error)
        print("HARNESS-ERROR: property=%s (not a violation)" % prop)
        return 2

    fuzz_info = None
    if args.tier == "thorough" and getattr(mod, "FUZZ", None) and not os.environ.get("LOV_NO_FUZZ"):
        fuzz_info = run_fuzz(prop, mod, seed, parts)

    merged = merge(parts)
    violations = []
    seen = set()
    for p in parts:
        for v in p["violations"]:
            if v["sig"] not in seen:
                seen.add(v["sig"])
                violations.append(v)
    known_lines = [ln for p in parts for ln in p["known_lines"]]
    excluded = collections.Counter()
    reproduced = {}
    for p in parts:
        excluded.update(p["findings_excluded"])
        reproduced.update(p["findings_reproduced"])
    extra = {
        "budget_exhausted": any(p["budget_exhausted"] for p in parts),
        "shards": nshards,
        "coverage_extra": parts[0].get("coverage_extra", {}) if parts else {},
    }
    if fuzz_info is not None:
        extra["coverage_extra"] = dict(extra.get("coverage_extra") or {}, fuzz=fuzz_info)
    if hasattr(mod, "gaps"):
        extra["gaps"] = mod.gaps(merged["labels"])
    wall = time.time() - t0
    write_evidence(mod, args.tier, seed, merged, wall, violations, {"excluded": dict(excluded), "reproduced": reproduced}, extra)
    for ln in known_lines:
        print(ln)
    print(
        "%s tier=%s seed=%d evaluations=%d distinct_nontrivial=%d excluded_known=%d wall=%.1fs"
        % (prop, args.tier, seed, merged["evaluations"], len(merged["nontrivial"]), sum(excluded.values()), wall)
    )
    for v in violations:
        print("  %s :: %s" % (v["sig"], v["detail"][:300].replace("\n", " ")))
        print("VIOLATION property=%s replay=%s" % (prop, v["replay"]))
    return 1 if violations else 0


if __name__ == "__main__":
    sys.exit(main())
