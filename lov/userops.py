"""Objects a *user* of the library would write: a minimal LinearOperator subclass and closure-free kernels."""
import torch

from linear_operator.operators import LinearOperator


class MinimalOp(LinearOperator):
    """Supplies only multiplication, size and transpose (the documented minimum)."""

    def __init__(self, tsr):
        super().__init__(tsr)
        self.tsr = tsr

    def _matmul(self, rhs):
        return torch.matmul(self.tsr, rhs)

    def _size(self):
        return self.tsr.size()

    def _transpose_nonbatch(self):
        return MinimalOp(self.tsr.mT)


def rbf(x1, x2, lengthscale, outputscale):
    x1 = x1.div(lengthscale)
    x2 = x2.div(lengthscale)
    sq_dist = (x1.unsqueeze(-2) - x2.unsqueeze(-3)).square().sum(dim=-1)
    return sq_dist.div(-2.0).exp().mul(outputscale[..., None, None].square())


def linear(x1, x2, variance):
    # variance: (..., 1, 1)
    return (x1 @ x2.mT) * variance


def multitask(x1, x2, lengthscale, task_root):
    """2 outputs per input: kron(rbf(x1,x2), B) with B = task_root task_root^T (2x2), data index slow."""
    x1 = x1.div(lengthscale)
    x2 = x2.div(lengthscale)
    sq_dist = (x1.unsqueeze(-2) - x2.unsqueeze(-3)).square().sum(dim=-1)
    k = sq_dist.div(-2.0).exp()
    b = task_root @ task_root.mT
    out = k.unsqueeze(-1).unsqueeze(-3) * b.unsqueeze(-2).unsqueeze(-4)  # (..., M,2,N,2)
    return out.reshape(*k.shape[:-2], k.shape[-2] * 2, k.shape[-1] * 2)


def multitask_op(x1, x2, lengthscale, task_covar):
    """multitask() with the task covariance handed over as a LinearOperator-valued hyperparameter (keyword sub-operator)"""
    x1 = x1.div(lengthscale)
    x2 = x2.div(lengthscale)
    sq_dist = (x1.unsqueeze(-2) - x2.unsqueeze(-3)).square().sum(dim=-1)
    k = sq_dist.div(-2.0).exp()
    b = task_covar.to_dense() if hasattr(task_covar, "to_dense") else task_covar
    out = k.unsqueeze(-1).unsqueeze(-3) * b.unsqueeze(-2).unsqueeze(-4)  # (..., M,2,N,2)
    return out.reshape(*k.shape[:-2], k.shape[-2] * 2, k.shape[-1] * 2)


def rbf_fixed(x1, x2, diag=False, **params):
    """Closure-free, parameter-free RBF in the calling convention of the deprecated KeOps wrapper
    (covar_func(x1, x2, diag=False, **params)); with diag=True the rows of x1 and x2 are paired."""
    if diag:
        return (x1 - x2).square().sum(dim=-1).div(-2.0).exp()
    sq_dist = (x1.unsqueeze(-2) - x2.unsqueeze(-3)).square().sum(dim=-1)
    return sq_dist.div(-2.0).exp()


KERNELS = {"rbf": rbf, "linear": linear, "multitask": multitask, "rbf_fixed": rbf_fixed}
