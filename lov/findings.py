"""Known-findings protocol.  /verif/known_findings.json is read-only at run time.

entry = {
  "id": "F-C03-1", "property": "C03", "title": "...",
  "signature": "glob over the violation signature",      # e.g. "getitem|Cat|*"
  "trigger": "name of a predicate over the generated case (optional)",
  "witness": "corpus/C03/xyz.json"  (optional),
  "status": "open" | "fixed: <commit> <what failed>"
}
A violation is attributed to an *open* entry iff its signature matches the glob AND the named trigger
(if any) holds for the case.  Entries with status "fixed: ..." suppress nothing.
"""
import fnmatch
import json
import os

ROOT = os.path.dirname(os.path.dirname(os.path.abspath(__file__)))
PATH = os.path.join(ROOT, "known_findings.json")
# private copy for module builders (proposed entries not yet merged by the lead)
PATH = os.environ.get("LOV_FINDINGS", PATH)


_CACHE = None


def load():
    """Read once per process: generators consult the open findings on every draw, and a file that changes under a running
    search would make the strategy definition inconsistent (Hypothesis FlakyStrategyDefinition)."""
    global _CACHE
    if _CACHE is None:
        if not os.path.exists(PATH):
            _CACHE = []
        else:
            with open(PATH) as fh:
                _CACHE = json.load(fh).get("findings", [])
    return _CACHE


class Findings:
    def __init__(self, prop, triggers=None):
        self.entries = [e for e in load() if e.get("property") == prop]
        self.open = [e for e in self.entries if e.get("status", "open") == "open"]
        self.triggers = triggers or {}
        self.excluded = {}  # id -> count
        self.reproduced = {}  # id -> bool (witness replay)

    def match(self, sig, case):
        for e in self.open:
            pats = e.get("signature")
            pats = pats if isinstance(pats, list) else [pats]
            if not any(fnmatch.fnmatchcase(sig, p) for p in pats):
                continue
            trig = e.get("trigger")
            if trig:
                fn = self.triggers.get(trig)
                if fn is None:
                    continue
                try:
                    if not fn(case):
                        continue
                except Exception:
                    continue
            self.excluded[e["id"]] = self.excluded.get(e["id"], 0) + 1
            return e
        return None
