#!/bin/bash
# Offline, idempotent: make sure hypothesis (and atheris for the fuzz stages) are importable by /venv/bin/python.
cd "$(dirname "$0")" || exit 1
DEPS="$PWD/.deps"
mkdir -p "$DEPS"
export PIP_NO_INDEX=1
if ! PYTHONPATH="$DEPS" /venv/bin/python -c "import hypothesis" >/dev/null 2>&1; then
  /venv/bin/python -m pip install -q --no-index --find-links /opt/veriftools/wheels --target "$DEPS" hypothesis || exit 1
fi
if ! PYTHONPATH="$DEPS" /venv/bin/python -c "import atheris" >/dev/null 2>&1; then
  /venv/bin/python -m pip install -q --no-index --find-links /opt/veriftools/wheels --target "$DEPS" atheris >/dev/null 2>&1 \
    || echo "note: atheris not installable; fuzz stages will be skipped"
fi
PYTHONPATH="/repo:$PWD:$DEPS" /venv/bin/python -c "import linear_operator, hypothesis, torch; print('setup ok', hypothesis.__version__)"
