#!/usr/bin/env python3
"""usage: seedall.py <name e.g. C02_b> <property> [extra property ids...]
confirm (tools/seedconfirm.sh) unless already confirmed, then evaluate with the quick tier at VERIF_SEED=1,2 (and the
thorough tier with 4 shards if the quick tier misses at both seeds), and write /verif/seeded/<name>/meta.json."""
import json, os, subprocess, sys, re
name, prop, extra = sys.argv[1], sys.argv[2], sys.argv[3:]
sd = "/tmp/seed/%s" % name
out = "/verif/seeded/%s" % name
if not os.path.exists(out + "/patch.diff"):
    r = subprocess.run(["/verif/tools/seedconfirm.sh", sd, name], capture_output=True, text=True)
    print(r.stdout[-600:])
    if "CONFIRMED " + name not in r.stdout or "NOT CONFIRMED" in r.stdout:
        sys.exit(1)
seeder = json.load(open(out + "/seeder_meta.json")) if os.path.exists(out + "/seeder_meta.json") else {}
ran = []
caught_by = {}
def _run(patch, ids, seed, tier, args):
    env = dict(os.environ, VERIF_SEED=str(seed), SEEDEVAL_TIER=tier, SEEDEVAL_ARGS=args)
    r = subprocess.run(["/verif/tools/seedeval.sh", patch] + ids, capture_output=True, text=True, env=env)
    res = {}
    for blk in re.split(r"(?m)^(?=== )", r.stdout):
        m = re.match(r"== (\S+) exit=(\d+) :: (.*)", blk)
        if not m: continue
        res[m.group(1)] = (int(m.group(2)), re.findall(r"(?m)^\s+(C\d\d\|[^ ]+)", blk), m.group(3)[:100])
    return res
def ev(ids, seed, tier="quick", args=""):
    """caught = the check exits 1 AND reports a violation signature that the SAME run on the unchanged tree does not report"""
    mut = _run(out + "/patch.diff", ids, seed, tier, args)
    need_base = [i for i in ids if mut.get(i, (0,))[0] == 1]
    base = _run("NONE", need_base, seed, tier, args) if need_base else {}
    for pid in ids:
        if pid not in mut: continue
        code, sigs, summ = mut[pid]
        bsigs = base.get(pid, (0, [], ""))[1]
        new = [x for x in sigs if x not in bsigs]
        ok = code == 1 and bool(new)
        ran.append({"check": pid, "tier": tier, "seed": seed, "args": args, "exit": code, "violations": new[:4], "also_on_unchanged_tree": [x for x in sigs if x in bsigs][:4], "summary": summ})
        caught_by.setdefault(pid, []).append(ok)
for seed in (1, 2):
    ev([prop] + extra, seed)
if not any(caught_by.get(prop, [])):
    ev([prop], 1, "thorough", "--shards 6")
meta = {
    "property": prop,
    "summary": seeder.get("summary"),
    "files": seeder.get("files"),
    "needs_to_manifest": seeder.get("needs"),
    "why_existing_tests_pass": seeder.get("why_tests_pass"),
    "confirmed_by_lead": {"how": "tools/seedconfirm.sh: fresh scratch worktree of /repo HEAD; demo.py exit 0 without the patch, non-zero with it; pinned pytest suite run with the patch applied", "suite_summary": open(out + "/.suite_summary").read().strip() if os.path.exists(out + "/.suite_summary") else None},
    "checks_run": ran,
    "caught_by": sorted(k for k, v in caught_by.items() if any(v)),
    "missed_by": sorted(k for k, v in caught_by.items() if not any(v)),
}
json.dump(meta, open(out + "/meta.json", "w"), indent=1)
print(name, "caught_by", meta["caught_by"], "missed_by", meta["missed_by"])
