#!/usr/bin/env python3
"""For every OPEN finding: does its witness still fail on the current tree?  (a witness that passes = fixed by a side effect,
or stale)"""
import json, subprocess
d = json.load(open('/verif/known_findings.json'))
for e in d['findings']:
    if e.get('status', 'open') != 'open':
        continue
    w = e.get('witness')
    if not w:
        print("NO WITNESS", e['id']); continue
    r = subprocess.run(['/verif/check', e['property'], '--replay', '/verif/' + w], capture_output=True, text=True)
    last = (r.stdout.strip().split("\n") or [""])[-1]
    print("%-45s %s" % (e['id'], "still fails" if "VIOLATION" in last else "PASSES NOW: " + last[:60]))
