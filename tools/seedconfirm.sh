#!/bin/bash
# usage: seedconfirm.sh <seed worktree dir, containing SEED/patch.diff SEED/demo.py SEED/meta.json> <name>
# Confirms independently, in a fresh scratch worktree of /repo HEAD: patch applies; demo fails with it and passes
# without it; the pinned test suite passes with it.  On success copies the artefacts to /verif/seeded/<name>/.
S="$1"; NAME="$2"; W=/tmp/confirm_$NAME
git -C /repo worktree remove --force $W 2>/dev/null
git -C /repo worktree add -q --detach $W HEAD || exit 2
cd $W
export OMP_NUM_THREADS=2
res="ok"
PYTHONPATH=$W /venv/bin/python $S/SEED/demo.py >/tmp/confirm_$NAME.clean.log 2>&1; c0=$?
git apply $S/SEED/patch.diff || { echo "PATCH DOES NOT APPLY on HEAD"; res="noapply"; }
if [ $res = ok ]; then
  PYTHONPATH=$W /venv/bin/python $S/SEED/demo.py >/tmp/confirm_$NAME.mut.log 2>&1; c1=$?
  PYTHONPATH=$W /venv/bin/python -m pytest -q -p no:cacheprovider --timeout=900 -x test >/tmp/confirm_$NAME.tests.log 2>&1; ct=$?
  summary=$(tail -1 /tmp/confirm_$NAME.tests.log)
  echo "$NAME: demo clean exit=$c0, demo mutated exit=$c1, tests exit=$ct :: $summary"
  if [ $c0 -eq 0 ] && [ $c1 -ne 0 ] && [ $ct -eq 0 ]; then
    mkdir -p /verif/seeded/$NAME
    cp $S/SEED/patch.diff $S/SEED/demo.py /verif/seeded/$NAME/
    cp $S/SEED/meta.json /verif/seeded/$NAME/seeder_meta.json
    echo "$summary" > /verif/seeded/$NAME/.suite_summary
    echo "CONFIRMED $NAME"
  else
    echo "NOT CONFIRMED $NAME"
  fi
fi
cd /; git -C /repo worktree remove --force $W
