#!/bin/bash
# usage: seedcorpus.sh <seed name> <ID> <tier> [runner args]  (VERIF_SEED from env)
# Runs the check against a scratch copy with the seeded patch applied, and copies the (shrunk) replay files of the
# violations it reports into corpus/<ID>/seed_<name>_<k>.json -- regression inputs for the seconds-long replay tier.
NAME=$1; ID=$2; TIER=$3; shift 3
D=$(mktemp -d /tmp/seedcorpus.XXXXXX)
cp -r /repo/linear_operator "$D/"
( cd "$D" && patch -s -p1 < /verif/seeded/$NAME/patch.diff ) || { echo "PATCH DOES NOT APPLY"; rm -rf "$D"; exit 3; }
LOV_EVIDENCE_DIR="$D/ev" LOV_REPLAY_DIR="$D/replays" /verif/tools/mutcheck.sh "$D" $ID --tier $TIER "$@" 2>&1 | grep "VIOLATION\|tier=" | cut -c1-200
k=0
for f in "$D"/replays/$ID/*.json; do
  [ -f "$f" ] || continue
  k=$((k+1))
  python3 - "$f" /verif/corpus/$ID/seed_${NAME}_$k.json $NAME <<'PY'
import json,sys
b=json.load(open(sys.argv[1]))
json.dump({"property":b["property"],"note":"shrunk failing input of seeded change %s (signature %s); passes on the unchanged tree"%(sys.argv[3],b["signature"]),"case":b["case"]},open(sys.argv[2],"w"),indent=1)
PY
  if /verif/check $ID --replay /verif/corpus/$ID/seed_${NAME}_$k.json 2>&1 | grep -q "replay passes"; then
    echo "saved corpus/$ID/seed_${NAME}_$k.json"
  else
    # fails on the unchanged tree as well: NOT caused by the seeded change -> to be adjudicated, not a regression input
    mkdir -p /verif/.work/clean_fail; mv /verif/corpus/$ID/seed_${NAME}_$k.json /verif/.work/clean_fail/${ID}_${NAME}_$k.json
    echo "CLEAN-TREE FAILURE (moved to .work/clean_fail/${ID}_${NAME}_$k.json)"; k=$((k-1))
  fi
  [ $k -ge 2 ] && break
done
rm -rf "$D"
