"""Triage helper (not a registered check): per head class, enumerate failure buckets of a property module.
usage: python tools/sweep.py C03 [examples-per-class] [Class ...]
Children are restricted to clean leaf classes so that failures are attributable to the head class."""
import collections, json, sys, os, time
sys.path.insert(0, "/verif")
import torch
from hypothesis import given, settings, HealthCheck, seed, strategies as st, Phase
from lov import gen, state, recipe as R
from lov.core import Violation
from lov.runner import load_module
torch.set_num_threads(1)
prop = sys.argv[1]
N = int(sys.argv[2]) if len(sys.argv) > 2 else 300
mod = load_module(prop)
heads = sys.argv[3:] or sorted(gen.PREDS)
LEAVES = {"Dense", "Diag", "TriT", "ConstantDiag"}
out = {}
for H in heads:
    buckets = collections.OrderedDict()
    cnt = [0, 0]
    def make(draw):
        dom = draw(st.sampled_from(["any", "psd", "pd"]))
        r = draw(gen.recipes(dom, max_depth=2, head=H, classes=LEAVES | {H, "Kronecker", "LowRankRoot"} if H in ("KroneckerAddedDiag", "SumKronecker", "LowRankRootAddedDiag") else LEAVES | {H}, exclude=("Chol.upper",)))
        return r
    @st.composite
    def cases(draw):
        r = make(draw)
        if r["op"] != ("Tri" if H in ("TriT", "TriBase") else H):
            return None
        from lov import refmodel
        shape = refmodel.shape(r)
        case = {"recipe": r, "debug": draw(st.booleans())}
        if prop == "C03":
            from lov.props import c03
            if shape[-1] == shape[-2] and draw(st.integers(0, 7)) == 0:
                case["diag"] = True
            else:
                case["index"] = draw(c03.indices(shape))
        return case
    @seed(7)
    @settings(max_examples=N, deadline=None, database=None, phases=[Phase.generate], suppress_health_check=list(HealthCheck))
    @given(cases())
    def t(case):
        if case is None:
            return
        cnt[0] += 1
        state.reset(seed_obj=case)
        try:
            mod.check(case)
        except Violation as v:
            cnt[1] += 1
            size = len(json.dumps(case))
            if v.sig not in buckets or size < buckets[v.sig][0]:
                buckets[v.sig] = (size, case, v.detail[:300], buckets.get(v.sig, (0, 0, 0, 0))[3] + 1 if v.sig in buckets else 1)
            else:
                b = buckets[v.sig]
                buckets[v.sig] = (b[0], b[1], b[2], b[3] + 1)
        finally:
            state.reset()
    t()
    print("== %s: %d cases, %d failing, %d buckets" % (H, cnt[0], cnt[1], len(buckets)), flush=True)
    for sig, (size, case, detail, n) in buckets.items():
        print("   [%d] %s\n        %s" % (n, sig, detail[:260].replace("\n", " ")))
    out[H] = {sig: {"n": n, "case": case, "detail": detail} for sig, (size, case, detail, n) in buckets.items()}
json.dump(out, open("/tmp/sweep_%s.json" % prop, "w"), indent=1)
