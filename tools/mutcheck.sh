#!/bin/bash
# usage: mutcheck.sh <dir containing a linear_operator/ package copy> <ID> [runner args...]
# Runs the same check against a scratch (mutated) copy of the library. Never used by registered commands.
D="$(cd "$1" && pwd)"; shift
cd /verif || exit 2
export PYTHONHASHSEED=0 LINEAR_OPERATOR_VERIF=1 OMP_NUM_THREADS=1 MKL_NUM_THREADS=1 PYTHONDONTWRITEBYTECODE=1 PYTHONWARNINGS=ignore
export LOV_REPO="$D" LOV_EVIDENCE_DIR="${LOV_EVIDENCE_DIR:-/tmp/lov_mut_evidence}"
export PYTHONPATH="$D:/verif:/verif/.deps"
exec /venv/bin/python -m lov.runner "$@"
