"""helper: apply a list of (file, old, new) replacements to /repo and commit them as one `fix:` commit.
usage (from python): from fixcommit import fix; fix(msg, [(file, old, new), ...])"""
import subprocess, sys
def fix(msg, edits):
    for f, old, new in edits:
        p = "/repo/" + f
        s = open(p).read()
        assert s.count(old) == 1, (f, s.count(old), old[:60])
        open(p, "w").write(s.replace(old, new))
    subprocess.run(["git", "-C", "/repo", "commit", "-qam", msg], check=True)
    h = subprocess.run(["git", "-C", "/repo", "rev-parse", "--short", "HEAD"], capture_output=True, text=True).stdout.strip()
    print(h, msg.split("\n")[0])
    return h
