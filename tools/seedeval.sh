#!/bin/bash
# usage: seedeval.sh <patch.diff> <ID> [ID...]   -- run the quick checks of the given properties against a scratch
# copy of /repo's package with the patch applied (never touches /repo). Env: SEEDEVAL_ARGS="--examples N" etc.
P="$(readlink -f "$1" 2>/dev/null || echo NONE)"; [ "$1" = NONE ] && P=NONE; shift
D=$(mktemp -d /tmp/seedeval.XXXXXX)
cp -r /repo/linear_operator "$D/"
if [ "$(basename "$P")" != "NONE" ]; then
( cd "$D" && patch -s -p1 < "$P" ) || { echo "PATCH DOES NOT APPLY"; rm -rf "$D"; exit 3; }
fi
rc=0
for id in "$@"; do
  out=$(LOV_EVIDENCE_DIR="$D/ev" LOV_REPLAY_DIR="$D/replays" /verif/tools/mutcheck.sh "$D" $id --tier ${SEEDEVAL_TIER:-quick} $SEEDEVAL_ARGS 2>&1)
  code=$?
  echo "== $id exit=$code :: $(echo "$out" | grep "tier=" | cut -c1-110)"
  echo "$out" | grep -B1 "^VIOLATION" | grep -v "^--" | cut -c1-260 | head -40
  echo "$out" | grep "HARNESS" | head -3
  [ $code -ne 0 ] && rc=1
done
rm -rf "$D"
exit $rc
