#!/bin/bash
# run every claimed check's quick tier once (seed from VERIF_SEED) and summarise
cd /verif
for p in $(python3 -c "import json;print(' '.join(c['property_id'] for c in json.load(open('MANIFEST.json'))['checks']))"); do
  out=$(./check $p --tier quick 2>&1); code=$?
  echo "$p exit=$code $(echo "$out" | grep -c KNOWN-FINDING) known :: $(echo "$out" | grep "tier=quick" | cut -c1-120)"
  echo "$out" | grep "VIOLATION\|HARNESS" | head -5
done
