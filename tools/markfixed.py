"""usage: python tools/markfixed.py <finding-id> <commit> [<finding-id> <commit> ...]"""
import json, sys
p = '/verif/known_findings.json'
d = json.load(open(p))
args = sys.argv[1:]
for fid, commit in zip(args[0::2], args[1::2]):
    for e in d["findings"]:
        if e["id"] == fid:
            line = "fixed: property=%s %s %s" % (e["property"], commit, e["title"][:220])
            e["status"] = line
            d.setdefault("fixed", []).append(line + " (finding %s, regression input %s)" % (fid, e.get("witness")))
            print("marked", fid)
            break
    else:
        print("NOT FOUND", fid)
json.dump(d, open(p, 'w'), indent=1)
