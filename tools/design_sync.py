#!/usr/bin/env python3
"""Replace the generated sections (9, 12) of DESIGN.md by .section9.md / .section12.md (run findings_md.py / seeded_md.py first)."""
import re
p = '/verif/DESIGN.md'
s = open(p).read()
def put(s, num, text):
    m = re.search(r"(?m)^## %d\. " % num, s)
    if m is None:
        return s.rstrip("\n") + "\n\n" + text.rstrip("\n") + "\n"
    n = re.search(r"(?m)^## \d+\. ", s[m.end():])
    end = m.end() + n.start() if n else len(s)
    return s[:m.start()] + text.rstrip("\n") + "\n\n" + s[end:]
s = put(s, 9, open('/verif/.section9.md').read())
s = put(s, 12, open('/verif/.section12.md').read())
open(p, 'w').write(s)
print("DESIGN.md synced")
