#!/bin/bash
# usage: quiet.sh <first seed> <last seed> [ID ...]   -- run the quick tier of every (given) check at every seed, 12 at a time,
# with private evidence/replay dirs (does not touch /verif/evidence); print only the runs that are not quiet.
A=$1; B=$2; shift 2
IDS="$@"; [ -z "$IDS" ] && IDS=$(python3 -c "import json;print(' '.join(c['property_id'] for c in json.load(open('/verif/MANIFEST.json'))['checks']))")
OUT=/verif/.work/quiet; mkdir -p $OUT
for id in $IDS; do for s in $(seq $A $B); do echo "$id $s"; done; done | xargs -P ${QUIET_JOBS:-12} -L 1 bash -c '
  id=$0; s=$1; d=/verif/.work/quiet/$id.$s; mkdir -p $d
  VERIF_SEED=$s LOV_EVIDENCE_DIR=$d LOV_REPLAY_DIR=$d/replays LOV_NO_FUZZ=1 /verif/check $id --tier quick > $d/log 2>&1; code=$?
  if [ $code -ne 0 ]; then echo "NOT QUIET $id seed=$s exit=$code"; grep -B1 "^VIOLATION\|HARNESS" $d/log | cut -c1-400; else rm -rf $d; fi'
echo "sweep done $A..$B"
