#!/bin/bash
# re-evaluate every stored seeded change against the current checks (3 at a time)
cd /verif
for d in seeded/C*_*; do n=$(basename $d); p=${n%%_*}; echo "$n $p"; done | xargs -P ${SEED_JOBS:-3} -L 1 bash -c '/venv/bin/python /verif/tools/seedall.py $0 $1 2>&1 | tail -1'
