#!/usr/bin/env python3
"""Regenerate /verif/MANIFEST.json from the table below (keeps it valid at all times): python3 tools/manifest.py"""
import json
import os

ROOT = os.path.dirname(os.path.dirname(os.path.abspath(__file__)))

# id -> (claimed?, technique, level text, level note)
PBT = "property-based testing (Hypothesis)"
CHECKS = {
    "C01": (
        PBT + " with a dense reference-model oracle",
        "generated operator trees x operations x right-hand-side kinds compared with an independent float64 dense reference model and torch.matmul",
        "trusts torch CPU float64 arithmetic and the harness' dense reference semantics (lov/refmodel.py); sizes <= 6 (<= 36 for Kronecker), nesting <= 3 (quick) / 4 (thorough); upper-orientation Cholesky operators are a recorded known finding and excluded from nesting",
    ),
    "C02": (
        PBT + ": generated expression programs over the ordered class-pair table, oracle = the same program on dense tensors step by step; declared-unsupported rule",
        "generated 1-4 step expression programs (+ - * / @ cat sum prod expand repeat squeeze unsqueeze permute transpose add_diagonal add_jitter add_low_rank cat_rows) whose first step is drawn from the ordered class x class table; after every step the dense value and shape are compared with the same step on the dense references with torch semantics; an explicit not-supported error is accepted and counted, anything else is a violation",
        "trusts torch broadcasting semantics as the specification and the dense reference model; program length <= 4, sizes <= 6; classes with open findings are excluded from generation and covered by their witnesses",
    ),
    "C03": (
        PBT + ": generated index tuples per (class, index-kind, position) cell, oracle = torch indexing of the dense reference",
        "generated operator trees x index tuples (ints incl. negative, non-empty slices incl. stepped / over-long / stop==size, Ellipsis, 0-d/1-d/rank-2 LongTensors, lists) x debug on/off; result (densified when lazy) compared in shape, advanced-index placement and value with torch indexing of the independent dense reference; explicit not-supported errors are counted as declined, everything else is a violation",
        "trusts torch advanced-indexing semantics as the specification; classes / index features with an open known finding (BlockDiag, BlockInterleaved, Cat, BatchRepeat, TransposePermutation, negative tensor entries, Kronecker of non-square factors .diagonal()) are excluded from generation and covered only by their witnesses",
    ),
    "C04": (
        PBT + ": PD operator trees x right-hand sides x settings cells, residual oracle against the dense reference with method-specific bounds",
        "generated positive-definite operator trees x rhs kinds x left factors x settings cells (max_cholesky_size, fast solves, cg_tolerance, max_cg_iterations, preconditioner sizes, memory_efficient); the returned X is checked by its residual against the independent dense reference with the direct-method backward-error bound, or the CG tolerance / Chebyshev bound for the iterations actually run when the verbose_linalg log shows CG",
        "trusts float64 dense solves of the reference matrix; condition numbers computed from the reference (<= 1e6); sizes <= 6",
    ),
    "C05": (
        PBT + ": PD operator trees x flags x settings, oracle = float64 slogdet / solve, and the exact Gauss-Lanczos quadrature for the recorded probe vectors",
        "deterministic paths compared with float64 slogdet / dense solves and documented output shapes; on the stochastic path the probe vectors are read from the InvQuadLogdet autograd node and the returned value must equal log|P| + n/m sum u_i^T log(P^-1/2 A P^-1/2) u_i for exactly those probes",
        "trusts torch.linalg.slogdet/eigh in float64; stochastic identity asserted only when the Lanczos budget reaches n",
    ),
    "C06": (
        PBT + ": PSD operator trees x method x size thresholds, reconstruction / orthonormality / triangularity oracles",
        "every factorization returned (cholesky, root_decomposition, root_inv_decomposition, eigh, eigvalsh, svd, diagonalization; every method argument) is multiplied out and compared with the dense reference; Q/U/V orthonormal, factors triangular, Lanczos roots equal the orthogonal compression onto their own span",
        "trusts float64 dense arithmetic; thresholds are crossed by lowering the settings, not by building large operators",
    ),
    "C07": (
        PBT + ": operator trees x requires-grad subsets x entry points, oracle = autograd through the differentiable dense reference",
        "gradients delivered by backpropagation through the library to every floating leaf and right-hand side are compared with autograd of the same scalar computed from the dense reference assembled from the very same leaves; each class's _bilinear_derivative is compared with autograd of its own matmul position by position; memory_efficient on/off must agree",
        "float64 only; stochastic log-determinant gradients are outside (their estimator is not a gradient of the forward value)",
    ),
    "C08": (
        PBT + ": SPD systems with known spectrum, budget-sweep oracle (monotone A-norm error, Chebyshev bound, derived floor) and Lanczos identities of the returned tridiagonals",
        "linear_cg is run with budgets 1..J on generated SPD systems whose eigenvalues are known by construction; monotone A-norm error, classical Chebyshev bound for the preconditioned condition number, floor derived from the code's own thresholds, tolerance when no warning, zero/scaled/frozen-column laws, preconditioner independence, tridiagonal = Lanczos matrix identities, error inputs raise",
        "trusts float64 dense solves / eigh as reference; n <= 64, kappa <= 1e6 (sub-check domains restricted where a bound is not sound in float32)",
    ),
    "C09": (
        PBT + ": symmetric PSD matrices x start vectors x budgets x batches, invariants of the returned (Q, T) and of the Lanczos consumers",
        "Q^T Q = I, T symmetric tridiagonal, Q^T A Q = T, A Q - Q T supported in the last column, Krylov-dimension identities; Lanczos-based root / inverse root / diagonalization equal the orthogonal compression of A onto the space they span",
        "tolerance is the routine's own re-orthogonalisation threshold (nothing tighter is promised); n <= 64",
    ),
    "C10": (
        PBT + ": PSD families (low rank, ties, mixed batches) x rank x tolerance x noise, prefix invariants of the greedy factorization and dense Woodbury / determinant identities",
        "every prefix of the returned pivoted-Cholesky factor is checked (residual PSD, zero pivot rows/columns, greedy pivot up to ties, monotone trace, exactness at full rank, early stop only below tolerance); the preconditioner closure, log-determinant and operator of K + D are compared with dense float64 (L L^T + D)^-1, log det and L L^T + D",
        "trusts float64 dense inverses; inputs iterated past their numerical rank are outside the domain; interpolated inputs with an approximate diagonal get structural checks only",
    ),
    "C11": (
        PBT + ": SPD systems x shifts x columns x quadrature settings, residual bounds, shift-invariance metamorphic relation, eigh matrix roots",
        "MINRES residuals bounded for the iterations actually run, shift invariance (solve for shift s equals the shift-0 solve of K + sI), zero / linear laws and output-shape rules; contour-integral quadrature compared with float64 eigh matrix roots at the Hale-Higham-Trefethen rate; sqrt_inv_matmul twice equals the solve",
        "kappa <= 1e4, n <= 40 (quadrature identities: n <= 20 or kappa <= 1e2)",
    ),
    "C12": (
        PBT + ", stateful: generated query / derivation / settings histories on one object, oracle = the same query on a freshly built object + cache-content validity invariant",
        "generated histories of queries and derivations on one operator object; every answer must equal the answer of the same query under the same settings on a fresh object built from the derived recipe; every factorization-valued cache entry of a derived object must multiply out to the derived matrix",
        "histories <= 12 steps over public queries only (no injected cache entries)",
    ),
    "C13": (
        PBT + ": operations x tensor layouts x short histories, oracle = version counters, strides and whole-storage bitwise snapshots",
        "every caller tensor (defining tensors, rhs, lhs, guesses, probes, index tensors, shifts, cotangents) is materialised in a generated layout (expanded, transposed, slice of sentinel-padded storage, strided) and snapshotted bitwise (whole storage) before and after each operation; existing operators must densify bitwise identically afterwards",
        "explicit out= buffers and detach_/requires_grad_ excepted as the statement says",
    ),
    "C14": (
        PBT + ": operator trees x source/target/default dtype x copy-or-convert operation, oracle = structure, dense value, dtype of every returned tensor, storage disjointness",
        "clone / detach / to / type / double / float / cpu / evaluate_kernel / representation round trip must preserve class and non-tensor arguments, the dense value to target precision, integer/bool dtypes, the floating dtype of every returned tensor under both torch default dtypes, storage disjointness of clones and requires_grad on exactly the float leaves",
        "device moves (cuda) cannot run here",
    ),
    "C15": (
        PBT + ": run-time registered-function tables x classes x operand orders, three-way agreement torch.f / method / dense",
        "the registered-function tables are read at run time; torch.f(op, ...) must agree with op.method(...) (same value or same exception class) and with torch.f on the dense operand; reversed-operand forms must have the right order and sign; unregistered functions must raise NotImplementedError",
        "argument-parsing errors raised by torch before dispatch are recorded as not dispatched",
    ),
    "C16": (
        PBT + " against a reference implementation of the specification (eigenvalue-margin generator, per-member expected try index)",
        "generated symmetric batches with the smallest eigenvalue placed at a stated margin from every jitter threshold; per-member reference verdict (sure-succeeds / sure-fails from float64 eigenvalues with a derived rounding margin), bitwise comparison of unperturbed members, jitter amount, warning/exception class and input immutability",
        "trusts torch.linalg.eigvalsh / cholesky_ex in float64 as reference; n <= 6; ambiguous inputs (lambda_min within rounding of a threshold) accept either neighbouring try",
    ),
    "C17": (
        PBT + ", stateful (RuleBasedStateMachine): construct/enter/exit/raise histories over all setting classes against a stack model, invariant after every event",
        "generated histories of construct / enter / exit / exception-exit events over every setting class found by introspection are run against a model (value in force at enter time is restored at exit); after every event every on()/off()/value()/value(dtype) must equal the model and untouched classes their defaults; a fixed computation must be bitwise unaffected by a balanced history",
        "histories <= 40 events; LIFO exit order as `with` guarantees",
    ),
    "C18": (
        PBT + ": PSD operator trees x k x sampler variants, oracle = exact Jacobian of the samples with respect to the intercepted normal draws (J J^T = covariance)",
        "torch.randn is intercepted in the harness process; the sampler's exact Jacobian with respect to its normal draws is obtained by finite differences (exact by linearity); J J^T must equal the reference covariance per draw and batch member, cross-draw and cross-member blocks must vanish, shape (k, *batch, n)",
        "n <= 6, k <= 3; Lanczos roots are compared with their compression; no statistics involved",
    ),
    "C19": (
        PBT + ": valid cases mutated into invalid ones, differential oracle = torch rejects the dense operation => the library must raise",
        "valid operands are mutated (wrong / size-1 inner dimension, extra or missing dims, non-broadcastable batch, index == size or < -size, too many indices); a case is kept only if torch rejects the same operation on the dense reference; the library must then raise - a returned (and successfully densified) value is the violation",
        "the converse direction (library raises where torch accepts) belongs to C01-C03",
    ),
    "C20": (
        PBT + ": direct calls of the utility kernels over their documented domains, oracle = dense definitions, round trips, QR / Moore-Penrose identities",
        "Toeplitz, interpolation, sparse, permutation, QR and pseudo-inverse kernels and dsmm (+ gradient) are called directly over their documented domains and compared with dense definitions written in the harness",
        "domains are those of the docstrings; nearly singular QR / pinverse inputs are held to the documented jitter bound only",
    ),
}

# properties whose check is built, quiet on the unchanged tree and registered
CLAIMED = ["C%02d" % i for i in range(1, 21)]

NOT_APPLICABLE = {}

PENDING = ["C%02d" % i for i in range(1, 21)]


def main():
    checks = []
    for pid, (tech, text, note) in sorted(CHECKS.items()):
        if pid not in CLAIMED:
            continue
        checks.append(
            {
                "property_id": pid,
                "quick_cmd": "./check %s --tier quick" % pid,
                "thorough_cmd": "./check %s --tier thorough" % pid,
                "evidence_file": "evidence/%s.json" % pid,
                "replay_cmd_template": "./check %s --replay {path}" % pid,
                "engine": "lov",
                "level_claimed": {
                    "category": "exploration",
                    "text": text + "; the property held on every generated case of the stated shape, nothing is claimed beyond them",
                    "design_ref": "DESIGN.md section 4, %s" % pid,
                },
                "level_note": note,
                "technique": tech,
            }
        )
    na = [{"property_id": k, "reason": v} for k, v in sorted(NOT_APPLICABLE.items())]
    for pid in PENDING:
        if pid not in CLAIMED and pid not in NOT_APPLICABLE:
            na.append({"property_id": pid, "reason": "check under construction in this build session (property-based test planned in DESIGN.md section 4); not claimed until it runs quietly on the unchanged tree"})
    man = {
        "version": 1,
        "setup_cmd": "cd /verif && ./setup.sh",
        "hooks": {
            "guard": "LINEAR_OPERATOR_VERIF",
            "enable": "no source hooks are needed: checks import /repo's working tree directly (editable install + PYTHONPATH=/repo) and observe the library through public calls, the verbose_linalg logger, autograd-node attributes and harness-side patches (torch.randn, closures); ./check exports LINEAR_OPERATOR_VERIF=1 for forward compatibility",
            "baseline_off_cmd": "cd /repo && env -u LINEAR_OPERATOR_VERIF /venv/bin/python -m pytest -ra -q -p no:cacheprovider --timeout=900 --continue-on-collection-errors",
            "source_commits": [],
            "add_only": True,
        },
        "engines": [
            {
                "name": "lov",
                "path": "/verif/lov",
                "serves_properties": sorted(CLAIMED),
                "kind_free_text": "Hypothesis-driven generated-input search (stateful machines for histories, Atheris campaigns through fuzz_one_input where listed) against explicit oracles: dense reference model, reference implementations, round trips, metamorphic relations, classical error bounds; collect-and-bucket runner with shrink budget, JSON replay files and known-findings protocol",
            }
        ],
        "checks": checks,
        "not_applicable": na,
        "notes": "quick = single process, fixed example budget; thorough = 16 shards with derived seeds and larger budgets. Known findings (genuine defects recorded, not repaired) are listed in /verif/known_findings.json and described in DESIGN.md section 9.",
    }
    with open(os.path.join(ROOT, "MANIFEST.json"), "w") as fh:
        json.dump(man, fh, indent=1)
    print("MANIFEST.json: %d checks, %d not_applicable" % (len(checks), len(na)))


if __name__ == "__main__":
    main()
