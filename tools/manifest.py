#!/usr/bin/env python3
"""Regenerate /verif/MANIFEST.json from the table below (keeps it valid at all times): python3 tools/manifest.py"""
import json
import os

ROOT = os.path.dirname(os.path.dirname(os.path.abspath(__file__)))

# id -> (claimed?, technique, level text, level note)
CHECKS = {
    "C01": (
        "property-based testing (Hypothesis) with a dense reference-model oracle",
        "generated operator trees x operations x right-hand-side kinds compared with an independent float64 dense reference model and torch.matmul",
        "trusts torch CPU float64 arithmetic and the harness' dense reference semantics (lov/refmodel.py); sizes <= 6 (<= 36 for Kronecker), nesting <= 3 (quick) / 4 (thorough); upper-orientation Cholesky operators are a recorded known finding and excluded from nesting",
    ),
    "C03": (
        "property-based testing (Hypothesis): generated index tuples per (class, index-kind, position) cell, oracle = torch indexing of the dense reference",
        "generated operator trees x index tuples (ints incl. negative, non-empty slices incl. stepped / over-long / stop==size, Ellipsis, 0-d/1-d/rank-2 LongTensors, lists) x debug on/off; result (densified when lazy) compared in shape, advanced-index placement and value with torch indexing of the independent dense reference; explicit not-supported errors are counted as declined, everything else is a violation",
        "trusts torch advanced-indexing semantics as the specification; classes / index features with an open known finding (BlockDiag, BlockInterleaved, Cat, BatchRepeat, TransposePermutation, negative tensor entries, Kronecker of non-square factors .diagonal()) are excluded from generation and covered only by their witnesses",
    ),
    "C16": (
        "property-based testing (Hypothesis) against a reference implementation of the specification (eigenvalue-margin generator, per-member expected try index)",
        "generated symmetric batches with the smallest eigenvalue placed at a stated margin from every jitter threshold; per-member reference verdict (sure-succeeds / sure-fails from float64 eigenvalues with a derived rounding margin), bitwise comparison of unperturbed members, jitter amount, warning/exception class and input immutability",
        "trusts torch.linalg.eigvalsh / cholesky_ex in float64 as reference; n <= 6; ambiguous inputs (lambda_min within rounding of a threshold) accept either neighbouring try",
    ),
}

NOT_APPLICABLE = {}

PENDING = ["C02", "C04", "C05", "C06", "C07", "C08", "C09", "C10", "C11", "C12", "C13", "C14", "C15", "C17", "C18", "C19", "C20"]


def main():
    checks = []
    for pid, (tech, text, note) in sorted(CHECKS.items()):
        checks.append(
            {
                "property_id": pid,
                "quick_cmd": "./check %s --tier quick" % pid,
                "thorough_cmd": "./check %s --tier thorough" % pid,
                "evidence_file": "evidence/%s.json" % pid,
                "replay_cmd_template": "./check %s --replay {path}" % pid,
                "engine": "lov",
                "level_claimed": {
                    "category": "exploration",
                    "text": text + "; the property held on every generated case of the stated shape, nothing is claimed beyond them",
                    "design_ref": "DESIGN.md section 4, %s" % pid,
                },
                "level_note": note,
                "technique": tech,
            }
        )
    na = [{"property_id": k, "reason": v} for k, v in sorted(NOT_APPLICABLE.items())]
    for pid in PENDING:
        if pid not in CHECKS and pid not in NOT_APPLICABLE:
            na.append({"property_id": pid, "reason": "check under construction in this build session (property-based test planned in DESIGN.md section 4); not claimed until it runs quietly on the unchanged tree"})
    man = {
        "version": 1,
        "setup_cmd": "cd /verif && ./setup.sh",
        "hooks": {
            "guard": "LINEAR_OPERATOR_VERIF",
            "enable": "no source hooks are needed: checks import /repo's working tree directly (editable install + PYTHONPATH=/repo) and observe the library through public calls, the verbose_linalg logger, autograd-node attributes and harness-side patches (torch.randn, closures); ./check exports LINEAR_OPERATOR_VERIF=1 for forward compatibility",
            "baseline_off_cmd": "cd /repo && env -u LINEAR_OPERATOR_VERIF /venv/bin/python -m pytest -ra -q -p no:cacheprovider --timeout=900 --continue-on-collection-errors",
            "source_commits": [],
            "add_only": True,
        },
        "engines": [
            {
                "name": "lov",
                "path": "/verif/lov",
                "serves_properties": sorted(CHECKS),
                "kind_free_text": "Hypothesis-driven generated-input search (stateful machines for histories, Atheris campaigns through fuzz_one_input where listed) against explicit oracles: dense reference model, reference implementations, round trips, metamorphic relations, classical error bounds; collect-and-bucket runner with shrink budget, JSON replay files and known-findings protocol",
            }
        ],
        "checks": checks,
        "not_applicable": na,
        "notes": "quick = single process, fixed example budget; thorough = 16 shards with derived seeds and larger budgets. Known findings (genuine defects recorded, not repaired) are listed in /verif/known_findings.json and described in DESIGN.md section 9.",
    }
    with open(os.path.join(ROOT, "MANIFEST.json"), "w") as fh:
        json.dump(man, fh, indent=1)
    print("MANIFEST.json: %d checks, %d not_applicable" % (len(checks), len(na)))


if __name__ == "__main__":
    main()
