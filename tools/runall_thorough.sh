#!/bin/bash
# run every claimed check's registered thorough command once (private evidence/replay dirs) and summarise
cd /verif
for p in $(python3 -c "import json;print(' '.join(c['property_id'] for c in json.load(open('MANIFEST.json'))['checks']))"); do
  d=/verif/.work/thorough/$p; mkdir -p $d
  t0=$(date +%s)
  out=$(LOV_EVIDENCE_DIR=$d LOV_REPLAY_DIR=$d/replays ./check $p --tier thorough 2>&1); code=$?
  echo "$p exit=$code $(( $(date +%s) - t0 ))s :: $(echo "$out" | grep "tier=thorough" | cut -c1-130)"
  echo "$out" | grep -B1 "^VIOLATION\|HARNESS" | grep -v "^--" | cut -c1-330 | head -12
done
